#!/usr/bin/env python3
"""Vendors the ELF/DWARF registries into the specification.

Sources (independent of pyelftools): glibc /usr/include/elf.h and LLVM 14 BinaryFormat
(ELF.h, ELFRelocs/*.def, DynamicTags.def, Dwarf.def).  Output: spec/RegistryData.tla
(name -> value as a decimal string; values exceed TLC's 32-bit ints) and
tools/registry.json (same data + provenance).  Names on which the two sources disagree
are listed as ambiguous and never asserted.  Run by hand; the output is committed.
"""
import glob
import json
import os
import re
import sys

HERE = os.path.dirname(os.path.dirname(os.path.abspath(__file__)))
LLVM = '/usr/lib/llvm-14/include/llvm/BinaryFormat'


def strip_comments(s):
    s = re.sub(r'/\*.*?\*/', ' ', s, flags=re.S)
    s = re.sub(r'//[^\n]*', '', s)
    return s


def ceval(expr, env):
    """Evaluate a C integer constant expression over already-known names."""
    e = expr.strip()
    e = re.sub(r'\(\s*(unsigned|int|long|Elf\d+_\w+|uint\d+_t|unsigned int|unsigned long)\s*\)', '', e)
    e = re.sub(r'\b(0[xX][0-9a-fA-F]+|\d+)[uUlL]+\b', r'\1', e)
    if not e:
        return None

    def sub(m):
        n = m.group(0)
        if n in env:
            return str(env[n])
        raise KeyError(n)
    try:
        e2 = re.sub(r'\b[A-Za-z_]\w*\b', sub, e)
        if not re.fullmatch(r'[0-9a-fA-FxX\s\(\)\+\-\*\|&<>~]+', e2):
            return None
        # C octal literals are not used in these headers except plain 0
        v = eval(e2, {'__builtins__': {}})
        if isinstance(v, int):
            return v & 0xffffffffffffffff if v < 0 else v
    except Exception:
        return None
    return None


def from_glibc():
    out = {}
    txt = strip_comments(open('/usr/include/elf.h').read())
    txt = txt.replace('\\\n', ' ')
    for m in re.finditer(r'^[ \t]*#[ \t]*define[ \t]+([A-Za-z_]\w*)[ \t]+(.+)$', txt, re.M):
        name, expr = m.group(1), m.group(2)
        if '(' in name:
            continue
        v = ceval(expr, out)
        if v is not None:
            out[name] = v
    return out


def from_llvm():
    out = {}
    txt = strip_comments(open(LLVM + '/ELF.h').read())
    # enum members "NAME = expr," (possibly inside enum blocks); keep evaluating in order
    for m in re.finditer(r'\b([A-Z][A-Za-z0-9_]*)\s*=\s*([^,;{}]+?)\s*(?=,|\})', txt):
        name, expr = m.group(1), m.group(2)
        v = ceval(expr, out)
        if v is not None and name not in out:
            out[name] = v
    for f in glob.glob(LLVM + '/ELFRelocs/*.def'):
        t = strip_comments(open(f).read())
        for m in re.finditer(r'ELF_RELOC\(\s*(\w+)\s*,\s*([^)]+)\)', t):
            v = ceval(m.group(2), out)
            if v is not None:
                out[m.group(1)] = v
    t = strip_comments(open(LLVM + '/DynamicTags.def').read())
    for m in re.finditer(r'^(\w*)DYNAMIC_TAG\(\s*(\w+)\s*,\s*([^)]+)\)', t, re.M):
        if m.group(1) == '' or m.group(1).endswith('_'):
            v = ceval(m.group(3), out)
            if v is not None:
                out['DT_' + m.group(2)] = v
    return out


def from_llvm_dwarf():
    out = {}
    t = strip_comments(open(LLVM + '/Dwarf.def').read())
    kinds = {'TAG': 'DW_TAG_', 'AT': 'DW_AT_', 'FORM': 'DW_FORM_', 'OP': 'DW_OP_', 'LANG': 'DW_LANG_',
             'ATE': 'DW_ATE_', 'VIRTUALITY': 'DW_VIRTUALITY_', 'DEFAULTED': 'DW_DEFAULTED_', 'CC': 'DW_CC_',
             'LNS': 'DW_LNS_', 'LNE': 'DW_LNE_', 'LNCT': 'DW_LNCT_', 'MACRO': 'DW_MACRO_', 'RLE': 'DW_RLE_',
             'LLE': 'DW_LLE_', 'CFA': 'DW_CFA_', 'APPLE_PROPERTY': 'DW_APPLE_PROPERTY_', 'UT': 'DW_UT_',
             'IDX': 'DW_IDX_', 'END': 'DW_END_'}
    for m in re.finditer(r'^HANDLE_DW_(\w+?)\(\s*(0x[0-9a-fA-F]+|\d+)\s*,\s*(\w+)', t, re.M):
        k, val, name = m.group(1), m.group(2), m.group(3)
        if k in ('CFA_PRED',):
            k = 'CFA'
        if k not in kinds:
            continue
        out[kinds[k] + name] = int(val, 0)
    # Dwarf.h: a few enums not in the .def file
    h = strip_comments(open(LLVM + '/Dwarf.h').read())
    for m in re.finditer(r'\b(DW_[A-Za-z0-9_]+)\s*=\s*(0x[0-9a-fA-F]+|\d+)\s*[,}]', h):
        out.setdefault(m.group(1), int(m.group(2), 0))
    return out


def main():
    g, l, d = from_glibc(), from_llvm(), from_llvm_dwarf()
    names = {}
    ambiguous = {}
    for src, tab in (('glibc', g), ('llvm', l), ('llvm-dwarf', d)):
        for n, v in tab.items():
            if re.search(r'(^|_)NUM$', n) or n.endswith('_NUM') or 'NUM' == n[-3:]:
                continue          # per-release counts, not codes
            if n in names and names[n][0] != v:
                ambiguous[n] = [names[n], (v, src)]
            elif n not in names:
                names[n] = (v, src)
    for n in ambiguous:
        names.pop(n, None)
    # hand-written supplement where neither header has the name (source given per entry)
    EXTRA = {
        'SHT_AMD64_UNWIND': (0x70000001, 'x86-64 psABI 4.2 (Solaris spelling of SHT_X86_64_UNWIND)'),
        'SHT_SUNW_LDYNSYM': (0x6ffffff3, 'Oracle Linker and Libraries Guide, sections'),
        'SHT_AARCH64_ATTRIBUTES': (0x70000003, 'AAELF64 5.3 section types'),
        'PT_AARCH64_ARCHEXT': (0x70000000, 'AAELF64 6.1 program header'),
        'PT_AARCH64_UNWIND': (0x70000001, 'AAELF64 6.1 program header'),
    }
    for n, (v, src) in EXTRA.items():
        names.setdefault(n, (v, 'supplement: ' + src))
    # keep only names shaped like registry constants
    keep = re.compile(r'^(EM|ET|EV|ELF(CLASS|DATA|OSABI|COMPRESS)\w*|EI|SHT|SHF|SHN|PT|PF|DT|DF|DF_1|DTF|STB|STT|STV|NT|R|EF|'
                      r'VER|GNU_PROPERTY|GRP|RHF|SYMINFO|DW_\w+|ODK|STO|E_\w+|AT)_\w+$|^ELFCLASS\w+$|^ELFDATA\w+$')
    names = {n: v for n, v in names.items() if keep.match(n)}
    data = {'names': {n: [str(v[0]), v[1]] for n, v in sorted(names.items())},
            'ambiguous': {n: [[str(a[0]), a[1]], [str(b[0]), b[1]]] for n, (a, b) in sorted(ambiguous.items())},
            'sources': ['glibc /usr/include/elf.h', 'LLVM 14 BinaryFormat ELF.h, ELFRelocs/*.def, DynamicTags.def, Dwarf.def, Dwarf.h']}
    # name families: which names belong to the base table and which to a machine / OS overlay
    MACH = ['ARM', 'AARCH64', 'X86_64', 'AMD64', 'MIPS', 'RISCV', 'HEX', 'HEXAGON', 'CSKY', 'PARISC', 'ALPHA', 'MSP430',
            'IA_64', 'SPARC', 'ARC', 'AVR', 'PPC', 'PPC64', 'S390', 'M68K', 'NIOS2', 'XTENSA', 'LOONGARCH', 'AMDGPU',
            'HP', 'C6000', 'TIC6X', 'SH', 'IA64', 'VE', 'LANAI', 'BPF', 'CUDA', 'MMA']
    fam = {}
    for pfx in ('SHT', 'PT', 'DT', 'EM', 'ET', 'ELFOSABI', 'STT', 'STB', 'STV', 'SHN', 'ELFCOMPRESS', 'EV', 'ELFCLASS', 'ELFDATA',
                'DW_TAG', 'DW_AT', 'DW_FORM', 'DW_OP', 'DW_CFA', 'DW_LNS', 'DW_LNE', 'DW_LANG', 'DW_ATE', 'DW_UT', 'DW_LLE', 'DW_RLE', 'DW_LNCT'):
        for n in names:
            if not (n.startswith(pfx + '_') or (pfx in ('ELFCLASS', 'ELFDATA') and n.startswith(pfx))):
                continue
            rest = n[len(pfx) + 1:]
            sub = 'BASE'
            if pfx in ('SHT', 'PT', 'DT', 'STT', 'STB', 'SHN'):
                for m in sorted(MACH, key=len, reverse=True):
                    if rest.startswith(m + '_') or rest == m:
                        sub = {'AMD64': 'X86_64', 'HEXAGON': 'HEX', 'IA64': 'IA_64'}.get(m, m)
                        break
                if pfx == 'DT' and rest.startswith('SUNW_'):
                    sub = 'SUNW'
            fam.setdefault(pfx, {}).setdefault(sub, []).append(n)
    data['families'] = fam
    json.dump(data, open(os.path.join(HERE, 'tools', 'registry.json'), 'w'), indent=0, sort_keys=True)

    def digs(v):
        b = v.to_bytes(max(1, (v.bit_length() + 7) // 8), 'little')
        return '<<' + ','.join(str(x) for x in b) + '>>'
    with open(os.path.join(HERE, 'spec', 'RegistryData.tla'), 'w') as f:
        f.write('---------------------------- MODULE RegistryData ----------------------------\n')
        f.write('(* VENDORED - generated by tools/mkregistry.py from glibc elf.h and LLVM 14 BinaryFormat.  *)\n')
        f.write('(* Reg: name |-> value as little-endian base-256 digits, minimal length (values exceed    *)\n')
        f.write('(* TLC\'s 32-bit integers).  RegFam: table prefix |-> family |-> set of names; family     *)\n')
        f.write('(* BASE is machine independent, the others are machine / OS overlays.                     *)\n')
        f.write('(* Names on which the sources disagree are in RegAmbiguous and are never asserted.        *)\n')
        f.write('Reg == [\n')
        items = sorted(names.items())
        f.write(',\n'.join('  %s |-> %s' % (n, digs(v[0])) for n, v in items))
        f.write('\n]\n\n')
        f.write('RegFam == [\n')
        f.write(',\n'.join('  %s |-> [%s]' % (p, ', '.join('%s |-> {%s}' % (sub, ', '.join('"%s"' % x for x in sorted(ns)))
                                                              for sub, ns in sorted(subs.items())))
                            for p, subs in sorted(fam.items())))
        f.write('\n]\n\n')
        # code -> names, per family, as sequences of <<digits, {names}>> (linear scan beats 4400-field record lookups)
        f.write('RegByCode == [\n')
        rows = []
        for p, subs in sorted(fam.items()):
            for sub, ns in sorted(subs.items()):
                bycode = {}
                for n in ns:
                    bycode.setdefault(names[n][0], []).append(n)
                rows.append('  %s_%s |-> <<%s>>' % (p, sub, ', '.join('<<%s, {%s}>>' % (digs(c), ', '.join('"%s"' % x for x in sorted(v)))
                                                                            for c, v in sorted(bycode.items()))))
        f.write(',\n'.join(rows))
        f.write('\n]\n\n')
        f.write('RegAmbiguous == {%s}\n' % ', '.join('"%s"' % n for n in sorted(ambiguous)))
        # names that bound a reserved range (gABI: "values in this inclusive range are reserved for ..."; DWARF: lo_user/hi_user):
        # they are not names OF a code - a code that also has a proper name is reported under the proper name
        pat = re.compile(r'_(LOOS|HIOS|LOPROC|HIPROC|LOUSER|HIUSER|LORESERVE|HIRESERVE|LOSUNW|HISUNW|VALRNGLO|VALRNGHI|ADDRRNGLO|ADDRRNGHI|lo_user|hi_user)$')
        f.write('RegMarkers == {%s}\n' % ', '.join('"%s"' % n for n in sorted(names) if pat.search(n)))
        f.write('=============================================================================\n')
    print('registry: %d names (%d glibc, %d llvm, %d llvm-dwarf raw), %d ambiguous' %
          (len(names), len(g), len(l), len(d), len(ambiguous)))


if __name__ == '__main__':
    main()
