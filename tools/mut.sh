#!/bin/sh
# tools/mut.sh <check id> <file relative to repo> <sed expression> : run a check against a one-line mutant
# in a scratch copy of the tree (never touches /repo).  Prints the tail of the check output and its exit code.
id=$1; f=$2; expr=$3
wt=$(mktemp -d /tmp/mutwt.XXXXXX)
rsync -a --exclude .git /repo/elftools /repo/scripts "$wt"/ 
mkdir -p "$wt/test" ; ln -s /repo/test/testfiles_for_unittests /repo/test/testfiles_for_readelf /repo/test/testfiles_for_dwarfdump /repo/test/testfiles_for_location_info "$wt/test/" 2>/dev/null
ln -s /repo/examples "$wt/examples" 2>/dev/null
sed -i "$expr" "$wt/$f"
if diff -q "$wt/$f" "/repo/$f" >/dev/null; then echo "MUTANT DID NOT CHANGE THE FILE"; rm -rf "$wt"; exit 3; fi
diff "/repo/$f" "$wt/$f" | head -6
VERIF_REPO=$wt /verif/check $id ${4:+--tier $4} 2>&1 | grep -v "^  \(expected\|observed\)" | tail -${TAILN:-6}
rc=$?
rm -rf "$wt"
