#!/bin/sh
# tools/run_all_against.sh <tree> [label]: every quick check against another copy of the library (false-alarm probe / seeded change survey).
# Prints one line per check: "<id> rc=<n> <first violation clause>".  Three checks run at a time with 5 TLC workers each.
tree=$1; label=${2:-probe}
out=/tmp/runall_$label; rm -rf $out; mkdir -p $out
run() { c=$1; o=$(VERIF_REPO=$tree VERIF_WORKERS=5 /verif/check $c 2>&1); rc=$?; echo "$c rc=$rc $(echo "$o" | grep 'clause=' | head -2 | tr '\n' ';')" > $out/$c.txt; }
for grp in "C01 C02 C03" "C04 C05 C06" "C07 C08 C09" "C10 C11 C12" "C13 C14 C15" "C16 C17 C18" "C19 C20"; do
  for c in $grp; do run $c & done; wait
done
cat $out/*.txt
