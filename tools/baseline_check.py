#!/usr/bin/env python3
"""Runs the pinned suite (guard off) and compares with /root/.vp/BASELINE.json stable_pass."""
import json, subprocess, sys, tempfile, os, xml.etree.ElementTree as ET
b = json.load(open('/root/.vp/BASELINE.json'))
x = tempfile.mktemp(suffix='.xml')
env = dict(os.environ); env.pop('PYELFTOOLS_VERIF', None)
subprocess.run('cd /repo && /venv/bin/python -m pytest -ra -q -p no:cacheprovider --timeout=900 --continue-on-collection-errors --junitxml=%s >/dev/null 2>&1' % x, shell=True, env=env)
passed = set()
for tc in ET.parse(x).getroot().iter('testcase'):
    if not any(c.tag in ('failure', 'error', 'skipped') for c in tc):
        passed.add('%s::%s' % (tc.get('classname'), tc.get('name')))
os.unlink(x)
missing = [t for t in b['stable_pass'] if t not in passed]
print('stable_pass: %d of %d pass' % (len(b['stable_pass']) - len(missing), len(b['stable_pass'])))
for m in missing: print('  NOT PASSING:', m)
sys.exit(1 if missing else 0)
