#!/usr/bin/env python3
"""tools/mutsweep.py <CHECK-ID> <file relative to repo> [--max N] [--seed S] [--jobs J] [--lines a-b]

Systematic sensitivity sweep: syntactic one-token mutants of one source file, each in a scratch copy of the tree
(never /repo).  A mutant is kept only if the pinned suite still says what it says on the unchanged tree; the check
is then run against it with VERIF_REPO.  Output: one line per mutant (caught / SURVIVED / suite-kills / no-import) and
a JSON summary under /tmp/mutsweep/<id>_<file>.json.  Survivors are triaged by hand (equivalent mutant, code outside
the property, or a gap in the specification's quantifier) - the result of the triage goes to DESIGN.md, never into a
test for the mutant.
"""
import argparse, concurrent.futures as cf, json, os, random, re, shutil, subprocess, sys, tempfile

REPO = '/repo'
OPS = [
    (r'(?<![<>=!])<(?![<=])', '<='), (r'<=', '<'), (r'(?<![<>=!-])>(?![>=])', '>='), (r'>=', '>'),
    (r'==', '!='), (r'!=', '=='),
    (r' \+ ', ' - '), (r' - ', ' + '), (r' \+= ', ' -= '), (r' -= ', ' += '),
    (r' and ', ' or '), (r' or ', ' and '), (r'\bnot ', ''),
    (r'\bTrue\b', 'False'), (r'\bFalse\b', 'True'),
    (r' << ', ' >> '), (r' >> ', ' << '), (r' \| ', ' & '), (r' & ', ' | '),
    (r' // ', ' * '), (r' \* ', ' // '), (r' % ', ' // '),
    (r'\bULInt', 'UBInt'), (r'\bUBInt', 'ULInt'), (r'\bSLInt', 'ULInt'), (r'\bSBInt', 'UBInt'), (r'\bULInt(\d+)', r'SLInt\1'),
    (r'Int16\b', 'Int32'), (r'Int32\b', 'Int16'), (r'Int64\b', 'Int32'), (r'Int8\b', 'Int16'),
    (r'\bULEB128\b', 'SLEB128'), (r'\bSLEB128\b', 'ULEB128'),
    (r'\.append\(', '.insert(0, '), (r'\bmin\(', 'max('), (r'\bmax\(', 'min('),
    (r'\bis None\b', 'is not None'), (r'\bis not None\b', 'is None'),
    (r'\bbreak\b', 'continue'), (r'\bcontinue\b', 'break'),
]
NUM = re.compile(r'(?<![\w.])(0x[0-9a-fA-F]+|\d+)(?![\w.])')


def mutants_of(path, lines=None):
    src = open(path).read().split('\n')
    out = []
    indoc = False
    for i, line in enumerate(src):
        s = line.strip()
        if s.count('"""') % 2 == 1 or s.count("'''") % 2 == 1:
            indoc = not indoc
            continue
        if indoc or not s or s.startswith('#') or s.startswith('import ') or s.startswith('from '):
            continue
        if lines and not (lines[0] <= i + 1 <= lines[1]):
            continue
        code = line.split('#')[0] if "'" not in line and '"' not in line else line
        for pat, rep in OPS:
            for m in re.finditer(pat, code):
                new = code[:m.start()] + m.expand(rep) + code[m.end():]
                out.append((i, new, '%s->%s' % (m.group(0).strip(), rep.strip())))
        for m in NUM.finditer(code):
            t = m.group(1)
            v = int(t, 0)
            for d in (1, -1):
                if v + d < 0:
                    continue
                nt = hex(v + d) if t.lower().startswith('0x') else str(v + d)
                out.append((i, code[:m.start()] + nt + code[m.end():], '%s->%s' % (t, nt)))
    return src, out


def make_tree():
    wt = tempfile.mkdtemp(prefix='mutsw.', dir='/tmp')
    subprocess.check_call(['rsync', '-a', '--exclude', '.git', '--exclude', '__pycache__', REPO + '/', wt + '/'])
    return wt


def suite(wt):
    p = subprocess.run('cd %s && timeout 600 /venv/bin/python -m pytest -q -p no:cacheprovider -x --timeout=300 --continue-on-collection-errors 2>&1 | tail -1' % wt,
                       shell=True, capture_output=True, text=True)
    return re.sub(r' in [0-9.]+s.*', '', p.stdout.strip())


def suite_full(wt):
    p = subprocess.run('cd %s && timeout 900 /venv/bin/python -m pytest -q -p no:cacheprovider --timeout=300 --continue-on-collection-errors 2>&1 | tail -1' % wt,
                       shell=True, capture_output=True, text=True)
    return re.sub(r' in [0-9.]+s.*', '', p.stdout.strip())


def run_one(args):
    cid, rel, src, (ln, new, desc), base, workers, tier = args
    wt = make_tree()
    try:
        lines = list(src)
        lines[ln] = new
        open(os.path.join(wt, rel), 'w').write('\n'.join(lines))
        p = subprocess.run(['/venv/bin/python', '-c', 'import sys; sys.path.insert(0, %r); import elftools.elf.elffile, elftools.dwarf.dwarfinfo, elftools.ehabi.ehabiinfo' % wt],
                           capture_output=True, text=True)
        if p.returncode != 0:
            return (ln + 1, desc, 'no-import', '')
        s = suite_full(wt)
        if s != base:
            return (ln + 1, desc, 'suite-kills', s)
        env = dict(os.environ, VERIF_REPO=wt, VERIF_WORKERS=str(workers))
        cmd = ['/verif/check', cid] + (['--tier', tier] if tier else [])
        p = subprocess.run(cmd, env=env, capture_output=True, text=True)
        sig = ';'.join(l.strip() for l in p.stdout.split('\n') if 'clause=' in l)[:200]
        if p.returncode == 1:
            return (ln + 1, desc, 'caught', sig)
        if p.returncode == 0:
            return (ln + 1, desc, 'SURVIVED', new.strip()[:160])
        return (ln + 1, desc, 'machinery rc=%d' % p.returncode, (p.stdout + p.stderr)[-300:])
    finally:
        shutil.rmtree(wt, ignore_errors=True)


def main():
    ap = argparse.ArgumentParser()
    ap.add_argument('cid'); ap.add_argument('file')
    ap.add_argument('--max', type=int, default=30); ap.add_argument('--seed', type=int, default=1)
    ap.add_argument('--jobs', type=int, default=3); ap.add_argument('--workers', type=int, default=4)
    ap.add_argument('--lines'); ap.add_argument('--tier')
    a = ap.parse_args()
    lines = tuple(map(int, a.lines.split('-'))) if a.lines else None
    src, muts = mutants_of(os.path.join(REPO, a.file), lines)
    random.Random(a.seed).shuffle(muts)
    # at most one mutant per line first, so the sample spreads over the file
    seen, pick, rest = set(), [], []
    for m in muts:
        (pick if m[0] not in seen else rest).append(m)
        seen.add(m[0])
    muts = (pick + rest)[:a.max]
    base = suite_full(REPO)
    print('# %s %s: %d mutants sampled, base suite: %s' % (a.cid, a.file, len(muts), base), flush=True)
    res = []
    with cf.ThreadPoolExecutor(a.jobs) as ex:
        for r in ex.map(run_one, [(a.cid, a.file, src, m, base, a.workers, a.tier) for m in muts]):
            print('%s:%d  %-22s %-12s %s' % (a.file, r[0], r[1], r[2], r[3]), flush=True)
            res.append(r)
    os.makedirs('/tmp/mutsweep', exist_ok=True)
    json.dump({'check': a.cid, 'file': a.file, 'results': res}, open('/tmp/mutsweep/%s_%s.json' % (a.cid, a.file.replace('/', '_')), 'w'), indent=1)
    n = {k: sum(1 for r in res if r[2] == k) for k in sorted({r[2] for r in res})}
    print('# summary', n)


if __name__ == '__main__':
    main()
