#!/bin/sh
# tools/seed_round.sh <round-number> <PID> [extra check ids]: evaluate the three changes of one sub-agent (worktree /tmp/seed<r>-<PID>) -> /tmp/seed<r>_eval_<PID>.log
r=$1; pid=$2; shift 2
for k in ${KS:-1 2 3}; do
  SEEDPFX=seed$r SEEDTAG=r$r- VERIF_WORKERS=${VERIF_WORKERS:-5} /verif/tools/seed_eval.sh $pid $k $pid "$@"
done > /tmp/seed${r}_eval_$pid.log 2>&1
