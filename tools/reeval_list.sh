#!/bin/sh
# tools/reeval_list.sh <file with seed ids> [worktree]: like reeval_seeds.sh for a given list; sibling checks for seeds that belong to another property's territory
list=$1; wt=${2:-/tmp/reeval-l}
git -C /repo worktree remove --force $wt 2>/dev/null; rm -rf $wt
git -C /repo worktree add -q --detach $wt HEAD || exit 2
head=$(git -C /repo log --format=%h -1)
sib() { case $1 in C08-r4-3) echo "C08 C11";; C17-r3-1) echo "C17 C08";; C17-r3-2|C17-r3-3) echo "C17 C05";; C17-r4-3) echo "C17 C18";; C17-r2-2) echo "C17 C04";; C17-r2-3) echo "C17 C01";; C17-2) echo "C17 C09";;
  C16-r5-3) echo "C16 C04";; C17-r5-1) echo "C17 C01";; C17-r5-2) echo "C17 C08";; C17-r5-3) echo "C17 C02";;
  C18-r2-1) echo "C18 C05";; C18-r2-2) echo "C18 C04";; C18-r4-1) echo "C18 C06";; *) echo $(echo $1 | cut -c1-3);; esac; }
for id in $(cat $list); do
  d=/verif/seeded/$id
  pf=$d/patch.diff; [ -f $d/patch_at_head.diff ] && pf=$d/patch_at_head.diff      # rebased by hand after a fix: commit touched the same line
  git -C $wt checkout -q -- . ; git -C $wt clean -fdq 2>/dev/null
  if ! git -C $wt apply --check $pf 2>/dev/null; then
    python3 -c "import json;json.dump({'head':'$head','applies':False,'note':'the patch no longer applies to this HEAD (a later fix: commit changed the same lines); earlier result in meta.json stands'},open('$d/final.json','w'),indent=1)"
    echo "$id: patch does not apply at $head"; continue
  fi
  u=$(cd $wt && timeout 300 /venv/bin/python $d/demo.py $wt >/dev/null 2>&1; echo $?)
  git -C $wt apply $pf
  p=$(cd $wt && timeout 300 /venv/bin/python $d/demo.py $wt >/dev/null 2>&1; echo $?)
  res=""
  for c in $(sib $id); do
    out=$(VERIF_REPO=$wt VERIF_WORKERS=6 /verif/check $c 2>&1); rc=$?
    sig=$(echo "$out" | grep "clause=" | head -2 | sed 's/^ *//' | tr '\n' ';' | tr '"' "'")
    res="$res$c:$rc:$sig|"
  done
  python3 - "$d" "$head" "$u" "$p" "$res" <<'PY'
import json,sys
d,head,u,p,res=sys.argv[1:6]
checks={}
for part in res.split('|'):
    if part:
        c,rc,sig=part.split(':',2); checks[c]={'exit':int(rc),'first_clauses':sig}
json.dump({'head':head,'applies':True,'demo_unpatched_exit':int(u),'demo_patched_exit':int(p),'checks':checks,
           'caught':any(v['exit']==1 for v in checks.values())},open(d+'/final.json','w'),indent=1)
PY
  echo "$id: demo $u/$p; $(echo $res | tr '|' ' ' | cut -c1-200)"
done
git -C $wt checkout -q -- . ; git -C /repo worktree remove --force $wt
