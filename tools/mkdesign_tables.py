#!/usr/bin/env python3
"""Regenerates the generated sections of DESIGN.md (between the GENERATED markers): findings as built and seeded changes."""
import glob, json, os, re
V = os.path.dirname(os.path.dirname(os.path.abspath(__file__)))
d = json.load(open(V + '/KNOWN_FINDINGS.json'))
out = ['## 17. Findings as built (generated from KNOWN_FINDINGS.json)', '',
       'Every entry was first demonstrated by its check on the then-current tree (replay file with the failing input), triaged against the',
       'standard, and then either repaired by one minimal unguarded `fix:` commit in /repo (the pinned 111 tests stay green after each) or',
       'recorded as `known` with the exact `clause:tag` signatures it silences. `fixed` entries suppress nothing.', '',
       '| property | id | status | commit | what failed |', '|---|---|---|---|---|']
for f in sorted(d['findings'], key=lambda f: (f['property'], f['id'])):
    out.append('| %s | %s | %s | %s | %s |' % (f['property'], f['id'], f['status'], f.get('commit', ''), f['description'].replace('|', '/')))
out += ['', '## 18. Seeded changes (independent sub-agents) and which checks catch them', '',
        'Each change was produced by a fresh sub-agent that saw only the property text and its own scratch worktree, keeps the 111 pinned tests green,',
        'and comes with a demonstration program (exit 0 unpatched, 1 patched). Confirmed here in a scratch worktree (`tools/seed_eval.sh`), then the',
        'checks were run with `VERIF_REPO=<worktree>`. "strengthened" = the check missed it at first and was extended (what was added is in the',
        'commit log and in §0); the result column is the state after strengthening.', '',
        'The last column is the re-run of every kept change against the final /repo HEAD in a fresh worktree (`tools/reeval_seeds.sh`, `seeded/<id>/final.json`);',
        '"n/a" there = the patch no longer applies because a later `fix:` commit changed the same lines.', '',
        '| seed | change | needs | when first evaluated (exit 1 = caught) | at the final HEAD |', '|---|---|---|---|---|']
for p in sorted(glob.glob(V + '/seeded/*/meta.json')):
    m = json.load(open(p))
    sid = os.path.basename(os.path.dirname(p))
    fin = ''
    fp = os.path.join(os.path.dirname(p), 'final.json')
    if os.path.exists(fp):
        f = json.load(open(fp))
        fin = 'n/a' if not f.get('applies') else ('caught: ' if f.get('caught') else 'MISSED: ') + ', '.join('%s=%d' % (c, v['exit']) for c, v in sorted(f['checks'].items()))
    out.append('| %s | %s | %s | %s | %s |' % (sid, m.get('summary', '').replace('|', '/')[:260], m.get('needs', '').replace('|', '/')[:200],
                                              ', '.join('%s: %s' % kv for kv in sorted(m.get('checks_run', {}).items())) + (' — ' + m['note'] if m.get('note') else ''), fin))
txt = open(V + '/DESIGN.md').read()
blk = '<!-- GENERATED:BEGIN -->\n' + '\n'.join(out) + '\n<!-- GENERATED:END -->\n'
if '<!-- GENERATED:BEGIN -->' in txt:
    txt = re.sub(r'<!-- GENERATED:BEGIN -->.*<!-- GENERATED:END -->\n', lambda m: blk, txt, flags=re.S)
else:
    txt = txt.rstrip('\n') + '\n\n--------------------------------------------------------------------------------\n\n' + blk
open(V + '/DESIGN.md', 'w').write(txt)
print('DESIGN.md tables regenerated: %d findings, %d seeds' % (len(d['findings']), len(glob.glob(V + '/seeded/*/meta.json'))))
