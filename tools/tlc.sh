#!/bin/sh
# tools/tlc.sh <module> <cfg> [extra tlc args]: run TLC by hand with short output; emitted cases go to /tmp/tlcout/<cfg>.ndjson
mkdir -p /tmp/tlcout; rm -rf /tmp/tlcout/meta_$2
cd /verif/spec
OUT=/tmp/tlcout/$2.ndjson; rm -f $OUT; export OUT
m=$1; c=$2; shift 2
java -XX:+UseParallelGC -cp /opt/veriftools/tla/tla2tools.jar:/opt/veriftools/tla/CommunityModules-deps.jar -DTLA-Library=/verif/spec:/verif/spec/trace tlc2.TLC -workers ${WORKERS:-16} -metadir /tmp/tlcout/meta_$c -noGenerateSpecTE -config cfg/$c.cfg "$@" $m.tla 2>&1 > /tmp/tlcout/$c.log
grep -v "^Linting\|^Semantic\|^Parsing\|^Warning\|^(Use" /tmp/tlcout/$c.log | cut -c1-400 | grep -A${ERRN:-14} -m1 "^Error\|violated" 
grep "states generated\|^Finished" /tmp/tlcout/$c.log | tail -2
rm -rf /tmp/tlcout/meta_$c
wc -l $OUT 2>/dev/null
