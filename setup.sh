#!/bin/sh
# Offline setup: nothing to build; verify that the tools exist and that every specification module parses.
cd "$(dirname "$0")" || exit 2
mkdir -p evidence replays
command -v java >/dev/null || { echo "java missing"; exit 2; }
test -f /opt/veriftools/tla/tla2tools.jar || { echo "tla2tools.jar missing"; exit 2; }
rc=0
cd spec
for f in *.tla trace/*.tla; do
  [ -f "$f" ] || continue

  out=$(java -cp /opt/veriftools/tla/tla2tools.jar:/opt/veriftools/tla/CommunityModules-deps.jar -DTLA-Library=.:trace tla2sany.SANY "$f" 2>&1)
  if echo "$out" | grep -q -i "error\|abort"; then echo "SANY failed on $f"; echo "$out" | tail -20; rc=2; fi
done
exit $rc
